// Package harness is the correspondence and oracle harness of /verif: it drives the implementation in
// /repo (built with -tags verif), records integer-coded traces that the extracted Coq models replay,
// and evaluates each property's oracle directly on the implementation's observations.
package harness

import (
	"bufio"
	"encoding/json"
	"fmt"
	"math"
	"os"
	"path/filepath"
	"sort"
	"strconv"
	"strings"
	"testing"
)

// ---- deterministic PRNG (splitmix64); every random choice of a run derives from VERIF_SEED ----
type Rng struct{ s uint64 }

// The state is a hash of the seed (not an affine image of it: consecutive seeds would otherwise yield the same stream shifted by one draw).
func NewRng(seed uint64) *Rng {
	z := seed*0x9E3779B97F4A7C15 + 0x1234567
	z = (z ^ (z >> 30)) * 0xBF58476D1CE4E5B9
	z = (z ^ (z >> 27)) * 0x94D049BB133111EB
	return &Rng{s: z ^ (z >> 31)}
}
func (r *Rng) U64() uint64 {
	r.s += 0x9E3779B97F4A7C15
	z := r.s
	z = (z ^ (z >> 30)) * 0xBF58476D1CE4E5B9
	z = (z ^ (z >> 27)) * 0x94D049BB133111EB
	return z ^ (z >> 31)
}
func (r *Rng) Intn(n int) int {
	if n <= 0 {
		return 0
	}
	return int(r.U64() % uint64(n))
}
func (r *Rng) Range(lo, hi int64) int64 { // inclusive
	if hi <= lo {
		return lo
	}
	return lo + int64(r.U64()%uint64(hi-lo+1))
}
func (r *Rng) Bool(pct int) bool { return r.Intn(100) < pct }
func (r *Rng) Float() float64    { return float64(r.U64()>>11) / (1 << 53) }
func (r *Rng) Pick(xs ...int64) int64 {
	return xs[r.Intn(len(xs))]
}
func (r *Rng) Fork() *Rng { return NewRng(r.U64()) }

func Seed() uint64 {
	if s := os.Getenv("VERIF_SEED"); s != "" {
		if v, err := strconv.ParseUint(s, 10, 64); err == nil {
			return v
		}
		if v, err := strconv.ParseInt(s, 10, 64); err == nil {
			return uint64(v)
		}
	}
	return 1
}
func Thorough() bool { return os.Getenv("VERIF_TIER") == "thorough" }
func Scale(quick, thorough int) int {
	if Thorough() {
		return thorough
	}
	return quick
}
func OutDir() string {
	d := os.Getenv("VERIF_OUT")
	if d == "" {
		d = filepath.Join(os.TempDir(), "verif-out")
	}
	os.MkdirAll(d, 0o755)
	return d
}

// ---- trace writer ----
type Trace struct {
	f      *os.File
	w      *bufio.Writer
	Cases  int
	Ops    int
	inCase bool
}

func NewTrace(name string) *Trace {
	f, err := os.Create(filepath.Join(OutDir(), name+".trace"))
	if err != nil {
		panic(err)
	}
	return &Trace{f: f, w: bufio.NewWriterSize(f, 1<<20)}
}
func ints(xs []int64) string {
	var sb strings.Builder
	for _, x := range xs {
		sb.WriteByte(' ')
		sb.WriteString(strconv.FormatInt(x, 10))
	}
	return sb.String()
}
func (t *Trace) Case(comp int, cfg ...int64) {
	if t.inCase {
		t.End()
	}
	fmt.Fprintf(t.w, "CASE %d%s\n", comp, ints(cfg))
	t.inCase = true
	t.Cases++
}
func (t *Trace) Op(code int, args []int64, obs []int64) {
	fmt.Fprintf(t.w, "OP %d%s |%s\n", code, ints(args), ints(obs))
	t.Ops++
}
func (t *Trace) End() {
	if t.inCase {
		fmt.Fprintln(t.w, "END")
		t.inCase = false
	}
}
func (t *Trace) Close() {
	t.End()
	t.w.Flush()
	t.f.Close()
}

func B(b bool) int64 {
	if b {
		return 1
	}
	return 0
}
func FBits(f float64) int64 { return int64(math.Float64bits(f)) }
func I(xs ...int64) []int64 { return xs }

// ---- oracle report: the property stated directly over implementation observations ----
type Violation struct {
	Signature string      `json:"signature"` // stable class of the failure, matched against known findings
	Detail    string      `json:"detail"`
	Replay    interface{} `json:"replay"` // the concrete input / history / schedule
}
type Report struct {
	Property    string         `json:"property"`
	Seed        uint64         `json:"seed"`
	Tier        string         `json:"tier"`
	Evaluations int            `json:"evaluations"`   // oracle evaluations (cases checked)
	Nontrivial  map[string]int `json:"nontrivial"`    // distinct canonical cases that reached the property's branch, by class
	Dist        map[string]int `json:"distribution"`  // input distribution: op kinds, sizes, outcomes
	Samples     []interface{}  `json:"samples"`       // a few actual cases
	Violations  []Violation    `json:"violations"`    // oracle failures on the implementation
	Known       []Violation    `json:"known_replays"` // replays of known findings that still fail
	Notes       []string       `json:"notes,omitempty"`
	distinct    map[string]struct{}
	perSig      map[string]int
}

func NewReport(prop string) *Report {
	tier := "quick"
	if Thorough() {
		tier = "thorough"
	}
	return &Report{Property: prop, Seed: Seed(), Tier: tier, Nontrivial: map[string]int{}, Dist: map[string]int{}, Violations: []Violation{}, Known: []Violation{}, Samples: []interface{}{},
		distinct: map[string]struct{}{}}
}
func (r *Report) Count(k string)         { r.Dist[k]++ }
func (r *Report) CountN(k string, n int) { r.Dist[k] += n }

// Distinct records a canonical non-trivial case of the given class; duplicates are not counted twice.
func (r *Report) Distinct(class, canon string) {
	k := class + "|" + canon
	if _, ok := r.distinct[k]; ok {
		return
	}
	r.distinct[k] = struct{}{}
	r.Nontrivial[class]++
}
func (r *Report) Sample(s interface{}) {
	if len(r.Samples) < 4 {
		r.Samples = append(r.Samples, s)
	}
}
func (r *Report) Violate(sig, detail string, replay interface{}) {
	// keep at most 3 per signature so that a frequent (possibly known) class cannot crowd out a new one
	if r.perSig == nil {
		r.perSig = map[string]int{}
	}
	if r.perSig[sig] < 3 && len(r.Violations) < 90 {
		r.Violations = append(r.Violations, Violation{sig, detail, replay})
	}
	r.perSig[sig]++
	r.Dist["oracle_violations"]++
}
func (r *Report) KnownStillFails(sig, detail string, replay interface{}) {
	r.Known = append(r.Known, Violation{sig, detail, replay})
}
func (r *Report) Write(t *testing.T) {
	sort.Slice(r.Violations, func(i, j int) bool { return r.Violations[i].Signature < r.Violations[j].Signature })
	b, err := json.MarshalIndent(r, "", " ")
	if err != nil {
		t.Fatal(err)
	}
	if err := os.WriteFile(filepath.Join(OutDir(), r.Property+".oracle.json"), b, 0o644); err != nil {
		t.Fatal(err)
	}
}

// Replay input: when VERIF_REPLAY names a JSON file, drivers re-run just that case.
func ReplayFile() string { return os.Getenv("VERIF_REPLAY") }
