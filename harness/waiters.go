package harness

import (
	"context"
	"errors"
	"fmt"
	"sync"
	"sync/atomic"
	"testing"
	"testing/synctest"
	"time"

	"github.com/platinummonkey/go-concurrency-limits/core"
	"github.com/platinummonkey/go-concurrency-limits/limit"
	"github.com/platinummonkey/go-concurrency-limits/limiter"
	"github.com/platinummonkey/go-concurrency-limits/patterns/pool"
	"github.com/platinummonkey/go-concurrency-limits/strategy"
)

// Blocking wrappers in settled ("big-step") scenarios: every operation runs to quiescence (synctest.Wait) on a virtual clock.

type WCfg struct {
	Kind     int   // 1 blocking 2 deadline 3 queue
	Fifo     bool  // expected ordering of the queue (what the constructor's name / documentation promises)
	MaxB     int64 // expected backlog bound
	RawB     int64 // backlog size handed to the constructor when it differs from the expected bound (<= 0 asks for the default 100); 0 = MaxB
	RawTO    int64 // timeout handed to the constructor when it differs from the expected one (pools: a negative timeout means "the default"); 0 = Timeout
	Timeout  int64 // ns: queue backlog timeout / blocking poll period (0 none)
	Deadline int64 // ns after the start of the scenario (deadline limiter)
	Evict    bool
	Limit    int64
	Via      string // which constructor builds it
	Shared   bool   // all callers bring one and the same context (no per-caller cancellation in such a scenario)
	Precise  bool
}

var wKindNames = []string{"", "blocking", "deadline", "queue"}

type wCaller struct {
	ctx      context.Context
	cancel   context.CancelFunc
	status   int64 // 0 blocked 1 holding 2 refused 3 completed
	t        int64
	arrival  int64
	listener core.Listener
	ret      chan struct{}
}

type WSUT struct {
	Cfg     WCfg
	Lim     core.Limiter
	Strat   core.Strategy
	busy    func() int
	Queue   *limiter.QueueBlockingLimiter
	Reg     *recRegistry
	Callers []*wCaller
	Now0    int64
	Absdl   int64
	inAcq   int64 // callers whose Acquire has not returned yet
	Stale   int64 // largest number of backlog entries seen, at the return of an Acquire, beyond the callers still inside Acquire
	finish  int32

	sharedCtx context.Context
}

type sharedKey struct{}

// ZeroDeadline: configuration marker for a deadline limiter built with the zero time.Time (a deadline long past)
const ZeroDeadline = -(int64(1) << 62)

// FarDeadline: marker for a deadline limiter built with a deadline centuries away (time.Date(9999, ...): beyond what int64 nanoseconds since
// 1970 can express); the model gets a deadline 2^61 ns after the start, which no scenario reaches either
const FarDeadline = int64(1) << 61

// NewWSUT must be called inside a synctest bubble.
func NewWSUT(c WCfg) (*WSUT, error) {
	rawB := int(c.MaxB)
	if c.RawB != 0 {
		rawB = int(c.RawB)
	}
	w := &WSUT{Cfg: c, Reg: newRecRegistry(), Now0: time.Now().UnixNano()}
	if c.Precise {
		s := strategy.NewPreciseStrategy(int(c.Limit))
		w.Strat, w.busy = s, s.GetBusyCount
	} else {
		s := strategy.NewSimpleStrategy(int(c.Limit))
		w.Strat, w.busy = s, s.GetBusyCount
	}
	newDelegate := func() (core.Limiter, error) {
		return limiter.NewDefaultLimiter(limit.NewSettableLimit("d", int(c.Limit), nil), 1e9, 1e9, 0, 10, w.Strat, nil, core.EmptyMetricRegistryInstance)
	}
	d, err := newDelegate()
	if err != nil {
		return nil, err
	}
	to := time.Duration(c.Timeout)
	if c.RawTO != 0 {
		to = time.Duration(c.RawTO)
	}
	w.Absdl = w.Now0 + c.Deadline
	ord := limiter.OrderingLIFO
	if c.Fifo {
		ord = limiter.OrderingFIFO
	}
	switch c.Via {
	case "blocking":
		w.Lim = limiter.NewBlockingLimiter(d, to, nil)
	case "deadline":
		if c.Deadline == ZeroDeadline {
			w.Lim = limiter.NewDeadlineLimiter(d, time.Time{}, nil)
		} else if c.Deadline == FarDeadline {
			w.Lim = limiter.NewDeadlineLimiter(d, time.Date([]int{9999, 2300, 2263}[int(c.Limit)%3], 12, 31, 0, 0, 0, 0, time.UTC), nil)
		} else {
			w.Lim = limiter.NewDeadlineLimiter(d, time.Unix(0, w.Absdl), nil)
		}
	case "config":
		q := limiter.NewQueueBlockingLimiterFromConfig(d, limiter.QueueLimiterConfig{Ordering: ord, MaxBacklogSize: rawB, MaxBacklogTimeout: to, BacklogEvictDoneCtx: c.Evict, MetricRegistry: w.Reg})
		w.Lim, w.Queue = q, q
	case "config-default-order": // ordering left empty: documented default is LIFO
		q := limiter.NewQueueBlockingLimiterFromConfig(d, limiter.QueueLimiterConfig{MaxBacklogSize: rawB, MaxBacklogTimeout: to, BacklogEvictDoneCtx: c.Evict, MetricRegistry: w.Reg})
		w.Lim, w.Queue = q, q
	case "with-defaults":
		q := limiter.NewQueueBlockingLimiterWithDefaults(d)
		w.Lim, w.Queue = q, q
	case "lifo":
		q := limiter.NewLifoBlockingLimiter(d, rawB, to, w.Reg)
		w.Lim, w.Queue = q, q.QueueBlockingLimiter
	case "lifo-defaults":
		q := limiter.NewLifoBlockingLimiterWithDefaults(d)
		w.Lim, w.Queue = q, q.QueueBlockingLimiter
	case "fifo":
		q := limiter.NewFifoBlockingLimiter(d, rawB, to)
		w.Lim, w.Queue = q, q.QueueBlockingLimiter
	case "fifo-defaults":
		q := limiter.NewFifoBlockingLimiterWithDefaults(d)
		w.Lim, w.Queue = q, q.QueueBlockingLimiter
	case "pool", "fixedpool":
		po := pool.OrderingRandom
		if c.Kind == 3 {
			po = pool.OrderingLIFO
			if c.Fifo {
				po = pool.OrderingFIFO
			}
		}
		if c.Via == "pool" {
			p, err := pool.NewPool(d, po, int(c.MaxB), to, nil, w.Reg)
			if err != nil {
				return nil, err
			}
			w.Lim = p
		} else {
			// the fixed pool builds its own precise strategy: observe busy through a holder count instead
			p, err := pool.NewFixedPool("p", po, int(c.Limit), 100, time.Second, time.Second, 0, int(c.MaxB), to, nil, w.Reg)
			if err != nil {
				return nil, err
			}
			w.Lim = p
			w.Strat = nil
			w.busy = func() int {
				n := 0
				for _, cl := range w.Callers {
					if cl.status == 1 {
						n++
					}
				}
				return n
			}
		}
	default:
		return nil, fmt.Errorf("unknown constructor %q", c.Via)
	}
	return w, nil
}

func (w *WSUT) CfgInts() []int64 {
	return []int64{int64(w.Cfg.Kind), B(w.Cfg.Fifo), w.Cfg.MaxB, w.Cfg.Timeout, w.Absdl, B(w.Cfg.Evict), w.Cfg.Limit, w.Now0}
}

func (w *WSUT) settle() { synctest.Wait() }

func (w *WSUT) Obs() []int64 {
	nb := int64(0)
	for _, c := range w.Callers {
		if c.status == 0 {
			nb++
		}
	}
	out := []int64{int64(w.busy()), nb, int64(len(w.Callers))}
	for _, c := range w.Callers {
		out = append(out, c.status, c.t)
	}
	return out
}

func (w *WSUT) Arrive(cancelled bool) int {
	ctx, cancel := context.WithCancel(context.Background())
	if len(w.Callers)%3 == 1 {
		// every third caller brings a context with a deadline of its own, far beyond the scenario: it never fires, and
		// it changes nothing about the limiter's own timers
		c2, cancel2 := context.WithDeadline(ctx, time.Now().Add(6*time.Hour))
		ctx = c2
		inner := cancel
		cancel = func() { cancel2(); inner() }
	}
	if cancelled {
		if len(w.Callers)%2 == 0 {
			// a context that is done because its own deadline has passed (DeadlineExceeded) is as done as a cancelled one
			cancel()
			ctx, cancel = context.WithDeadline(context.Background(), time.Now().Add(-time.Second))
		} else {
			cancel()
		}
	}
	if w.Cfg.Shared && !cancelled {
		cancel()
		if w.sharedCtx == nil {
			w.sharedCtx = context.WithValue(context.Background(), sharedKey{}, "one context for every caller")
		}
		ctx, cancel = w.sharedCtx, func() {}
	}
	c := &wCaller{ctx: ctx, cancel: cancel, arrival: time.Now().UnixNano(), t: time.Now().UnixNano(), ret: make(chan struct{})}
	w.Callers = append(w.Callers, c)
	atomic.AddInt64(&w.inAcq, 1)
	go func() {
		ls, ok := w.Lim.Acquire(ctx)
		inside := atomic.AddInt64(&w.inAcq, -1)
		if w.Queue != nil && atomic.LoadInt32(&w.finish) == 0 {
			// every backlog entry belongs to a caller still inside Acquire: a caller's own entry is gone when its Acquire returns
			if extra := int64(w.Queue.VerifBacklogLen()) - inside; extra > 0 {
				for {
					m := atomic.LoadInt64(&w.Stale)
					if extra <= m || atomic.CompareAndSwapInt64(&w.Stale, m, extra) {
						break
					}
				}
			}
		}
		c.t = time.Now().UnixNano()
		if ok != (ls != nil) {
			c.status = -9 // a listener must be returned iff ok
		} else if ok {
			c.listener, c.status = ls, 1
		} else {
			c.status = 2
		}
		close(c.ret)
	}()
	w.settle()
	return len(w.Callers) - 1
}
func (w *WSUT) Release(i int, outcome int64) {
	c := w.Callers[i]
	switch outcome {
	case 0:
		c.listener.OnSuccess()
	case 1:
		c.listener.OnIgnore()
	default:
		c.listener.OnDropped()
	}
	c.status = 3
	w.settle()
}
func (w *WSUT) Cancel(i int) { w.Callers[i].cancel(); w.settle() }
func (w *WSUT) Advance(d int64) {
	time.Sleep(time.Duration(d))
	w.settle()
}
func (w *WSUT) SetLimit(n int64) {
	if w.Strat != nil {
		w.Strat.SetLimit(int(n))
	}
}

// Finish lets every goroutine of the scenario end so that the bubble can be left.
func (w *WSUT) Finish() {
	atomic.StoreInt32(&w.finish, 1)
	for _, c := range w.Callers {
		c.cancel()
	}
	w.settle()
	if w.Strat != nil {
		w.Strat.SetLimit(1 << 20)
	}
	for i := 0; i < 40; i++ {
		moved := false
		for _, c := range w.Callers {
			if c.status == 1 {
				c.listener.OnIgnore()
				c.status = 3
				moved = true
			}
		}
		w.settle()
		// queue callers without cancellation eviction leave at their timeout (or, without one, when they are served)
		if w.Cfg.Timeout > 0 {
			time.Sleep(time.Duration(w.Cfg.Timeout+1) * 2)
		} else {
			time.Sleep(time.Millisecond)
		}
		w.settle()
		pending := 0
		for _, c := range w.Callers {
			if c.status == 0 {
				pending++
			}
		}
		if !moved && pending == 0 && i >= 2 {
			break
		}
		if pending > 0 {
			if ls, ok := w.Lim.Acquire(context.Background()); ok {
				ls.OnIgnore()
			}
			w.settle()
		}
	}
	// one more acquire/release broadcasts to helper goroutines orphaned in cond.Wait
	if ls, ok := w.Lim.Acquire(context.Background()); ok {
		ls.OnIgnore()
	}
	w.settle()
}

type wOp struct {
	Op   int
	Args []int64
}

// RunScenario executes ops (generated on the fly by gen) inside a bubble and records the trace.
// ErrStuck: the scenario's bubble did not come to rest within two minutes of real time (a goroutine of the limiter is spinning, or sits on a
// mutex that is never released): neither the virtual clock nor the scenario can advance.
var ErrStuck = fmt.Errorf("scenario does not come to rest")

// ErrBlocked: callers of the limiter stay blocked for ever (no release, timer or cancellation can end their wait any more)
var ErrBlocked = fmt.Errorf("callers blocked for ever")

func RunScenario(t *testing.T, cfg WCfg, tr *Trace, gen func(w *WSUT, step int) *wOp, after func(w *WSUT, op wOp, before []int64, granted []int64), maxSteps int) (hist []wOp, err error) {
	var mu sync.Mutex
	var h []wOp
	var e error
	done := make(chan struct{})
	go func() {
		defer close(done)
		defer func() {
			// synctest panics (in the goroutine that started the bubble) when the bubble can never finish: every goroutine durably blocked with
			// no timer pending, or goroutines still blocked when the scenario is over
			if p := recover(); p != nil {
				mu.Lock()
				e = fmt.Errorf("%w: %v", ErrBlocked, p)
				mu.Unlock()
			}
		}()
		hh, ee := runScenario(t, cfg, tr, gen, func(w *WSUT, op wOp, before []int64, granted []int64) {
			mu.Lock()
			h = append(h, op)
			mu.Unlock()
			if after != nil {
				after(w, op, before, granted)
			}
		}, maxSteps)
		mu.Lock()
		h = hh
		if e == nil {
			e = ee
		}
		mu.Unlock()
	}()
	select {
	case <-done:
		return h, e
	case <-time.After(2 * time.Minute):
		mu.Lock()
		defer mu.Unlock()
		return append([]wOp{}, h...), ErrStuck
	}
}

var _ = errors.Is

func runScenario(t *testing.T, cfg WCfg, tr *Trace, gen func(w *WSUT, step int) *wOp, after func(w *WSUT, op wOp, before []int64, granted []int64), maxSteps int) (hist []wOp, err error) {
	synctest.Test(t, func(t *testing.T) {
		w, e := NewWSUT(cfg)
		if e != nil {
			err = e
			return
		}
		tr.Case(50, w.CfgInts()...)
		for i := 0; i < maxSteps; i++ {
			op := gen(w, i)
			if op == nil {
				break
			}
			before := w.Obs()
			wasBlocked := map[int]bool{}
			for j, c := range w.Callers {
				if c.status == 0 {
					wasBlocked[j] = true
				}
			}
			switch op.Op {
			case 1:
				w.Arrive(op.Args[0] != 0)
			case 2:
				w.Release(int(op.Args[0]), op.Args[1])
			case 3:
				w.Cancel(int(op.Args[0]))
			case 4:
				w.Advance(op.Args[0])
			default:
				w.SetLimit(op.Args[0])
			}
			// which previously blocked callers obtained a token during this operation (scheduler's choice among woken callers)
			var granted []int64
			for j, c := range w.Callers {
				if wasBlocked[j] && (c.status == 1) {
					granted = append(granted, int64(j))
				}
			}
			args := append([]int64{}, op.Args...)
			if op.Op == 2 || op.Op == 4 {
				args = append(args, granted...)
			}
			obs := append([]int64{int64(op.Op)}[:0], w.Obs()...)
			tr.Op(op.Op, args, obs)
			hist = append(hist, wOp{op.Op, args})
			if after != nil {
				after(w, wOp{op.Op, args}, before, granted)
			}
		}
		tr.End()
		w.Finish()
	})
	return
}

func timeNow() time.Time { return time.Now() }
