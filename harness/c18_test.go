package harness

import (
	"fmt"
	"math"
	"sort"
	"testing"
	"time"

	"github.com/platinummonkey/go-concurrency-limits/core"
	"github.com/platinummonkey/go-concurrency-limits/measurements"
)

type measCfg struct {
	Kind int
	P    []int64
}

func (c measCfg) ints() []int64 { return append([]int64{int64(c.Kind)}, c.P...) }

func newMeas(c measCfg) core.MeasurementInterface {
	switch c.Kind {
	case 1:
		return &measurements.MinimumMeasurement{}
	case 2:
		return &measurements.SingleMeasurement{}
	case 3:
		return measurements.NewExponentialAverageMeasurement(int(c.P[0]), int(c.P[1]))
	case 4:
		m, err := measurements.NewSimpleExponentialMovingAverage(fb(c.P[0]))
		if err != nil {
			return nil
		}
		return m
	case 5:
		m, err := measurements.NewSimpleMovingVariance(fb(c.P[0]), fb(c.P[1]))
		if err != nil {
			return nil
		}
		return m
	default:
		m, err := measurements.NewWindowlessMovingPercentile(fb(c.P[0]), fb(c.P[1]), fb(c.P[2]), fb(c.P[3]))
		if err != nil {
			return nil
		}
		return m
	}
}

var measNames = []string{"", "minimum", "single", "expavg", "sema", "variance", "percentile", "window"}

func genMeasCfg(r *Rng, kind int) measCfg {
	alpha := func() float64 { return []float64{0.05, 0.5, 1.0, 0.2, 0.01, 0.3333}[r.Intn(6)] }
	switch kind {
	case 3:
		return measCfg{3, []int64{r.Pick(1, 2, 5, 10, 100, 600), r.Pick(0, 1, 3, 10)}}
	case 4:
		return measCfg{4, []int64{FBits(alpha())}}
	case 5:
		return measCfg{5, []int64{FBits(alpha()), FBits(alpha())}}
	case 6:
		return measCfg{6, []int64{FBits([]float64{0.9, 0.5, 0.99, 0.1}[r.Intn(4)]), FBits([]float64{0.01, 0.1, 1}[r.Intn(3)]), FBits(alpha()), FBits(alpha())}}
	}
	return measCfg{kind, nil}
}

// positive finite samples, |x| >= 2^-500 so that math.Pow(d,2) == d*d
func genSample(r *Rng, base float64) float64 {
	switch r.Intn(8) {
	case 0:
		return base
	case 1:
		return float64(r.Range(1, 1000))
	case 2:
		return base * (0.5 + r.Float())
	case 3:
		return float64(r.Range(1, 1<<40))
	case 4:
		return 0.1 * float64(r.Range(1, 50))
	default:
		return base + float64(r.Range(0, 1000))
	}
}

type measOp struct {
	Op   int
	Args []int64
}

func applyMeas(m core.MeasurementInterface, op measOp) []int64 {
	switch op.Op {
	case 1:
		v, f := m.Add(fb(op.Args[0]))
		return []int64{FBits(v), B(f)}
	case 2:
		return []int64{FBits(m.Get())}
	case 3:
		m.Reset()
		return []int64{}
	default:
		c := fb(op.Args[1])
		if op.Args[0] == 0 {
			m.Update(func(v float64) float64 { return v + c })
		} else {
			m.Update(func(v float64) float64 { return v * c })
		}
		return []int64{FBits(m.Get())}
	}
}

func TestC18(t *testing.T) {
	tr := NewTrace("C18")
	rep := NewReport("C18")
	defer func() { tr.Close(); rep.Write(t) }()
	root := NewRng(Seed())
	nCases := Scale(150, 3000)
	for kind := 1; kind <= 6; kind++ {
		for ci := 0; ci < nCases; ci++ {
			r := root.Fork()
			cfg := genMeasCfg(r, kind)
			m := newMeas(cfg)
			if m == nil {
				continue
			}
			name := measNames[kind]
			tr.Case(18, cfg.ints()...)
			base := float64(r.Pick(10, 1000, 1_000_000, 50_000_000))
			var hist []measOp
			var since []float64 // samples added since the last reset (or construction), untouched by Update
			updated := false
			fail := func(sig, d string) {
				rep.Violate(name+":"+sig, fmt.Sprintf("%s (cfg=%v after %d ops)", d, cfg.ints(), len(hist)), map[string]interface{}{"component": "measurement", "cfg": cfg.ints(), "ops": hist})
			}
			n := 5 + r.Intn(Scale(60, 200))
			resetAt := -1
			for i := 0; i < n; i++ {
				var op measOp
				switch k := r.Intn(20); {
				case k < 14:
					x := genSample(r, base)
					if cur := m.Get(); r.Bool(12) && cur > 0x1p-500 && cur < 0x1p500 {
						x = cur // a sample equal to the stored value: averaging it with itself may still move the value by an ulp
					}
					op = measOp{1, []int64{FBits(x)}}
				case k < 16:
					op = measOp{2, nil}
				case k < 18:
					op = measOp{3, nil}
				default:
					op = measOp{4, []int64{int64(r.Intn(2)), FBits([]float64{1, 0.5, 2, 10, 0.9}[r.Intn(5)])}}
				}
				before := m.Get()
				obs := applyMeas(m, op)
				after := m.Get()
				tr.Op(op.Op, op.Args, obs)
				hist = append(hist, op)
				rep.Evaluations++
				rep.Count(fmt.Sprintf("%s.op%d", name, op.Op))
				switch op.Op {
				case 1:
					x := fb(op.Args[0])
					since = append(since, x)
					rep.Distinct("add", fmt.Sprint(kind, cfg.P, len(since), op.Args[0], obs[0]))
					if math.Float64bits(before) != math.Float64bits(after) && obs[1] == 0 {
						fail("flag-missed", fmt.Sprintf("Add(%v) changed the stored value %v -> %v but reported changed=false", x, before, after))
					}
					if !updated {
						lo, hi, sum := math.Inf(1), math.Inf(-1), 0.0
						for _, s := range since {
							lo, hi, sum = math.Min(lo, s), math.Max(hi, s), sum+s
						}
						switch kind {
						case 1:
							if after != lo {
								fail("not-minimum", fmt.Sprintf("value %v is not the minimum %v of the samples since reset", after, lo))
							}
						case 2:
							if after != x {
								fail("not-latest", fmt.Sprintf("value %v is not the latest sample %v", after, x))
							}
						case 3:
							if int64(len(since)) <= cfg.P[1] {
								if after != sum/float64(len(since)) {
									fail("warmup-mean", fmt.Sprintf("warm-up value %v is not the arithmetic mean %v", after, sum/float64(len(since))))
								}
							}
							slack := 4 * float64(len(since)+1) * 0x1p-53
							if after < lo*(1-slack) || after > hi*(1+slack) {
								sig := "outside-hull"
								if cfg.P[1] == 0 {
									sig += ":no-warmup" // known finding F20
								}
								fail(sig, fmt.Sprintf("average %v outside [%v, %v]", after, lo, hi))
							}
						}
					}
					if kind == 5 && after < 0 {
						fail("negative-variance", fmt.Sprintf("variance %v", after))
					}
				case 3:
					since, updated = nil, false
					resetAt = len(hist)
				case 4:
					updated = true
					// the minimum only ever moves down: an Update goes through Add, so the value never exceeds a sample seen since reset
					if kind == 1 && len(since) > 0 {
						lo := math.Inf(1)
						for _, s := range since {
							lo = math.Min(lo, s)
						}
						if after > lo {
							fail("above-samples", fmt.Sprintf("after Update the minimum reads %v, above the smallest sample %v added since reset", after, lo))
						}
					}
				}
			}
			// reset twin: after Reset the instance must behave exactly like a new one
			m.Reset()
			tr.Op(3, nil, []int64{})
			hist = append(hist, measOp{3, nil})
			fresh := newMeas(cfg)
			for i := 0; i < 12; i++ {
				var op measOp
				if r.Bool(80) {
					op = measOp{1, []int64{FBits(genSample(r, base))}}
				} else if r.Bool(50) {
					op = measOp{2, nil}
				} else {
					op = measOp{4, []int64{int64(r.Intn(2)), FBits(2)}}
				}
				a, b := applyMeas(m, op), applyMeas(fresh, op)
				tr.Op(op.Op, op.Args, a)
				hist = append(hist, op)
				rep.Evaluations++
				if fmt.Sprint(a) != fmt.Sprint(b) {
					fail("reset-not-fresh", fmt.Sprintf("op %d after Reset returned %v, a new instance returns %v", i, a, b))
					break
				}
			}
			rep.Distinct("reset-twin", fmt.Sprint(kind, cfg.P, resetAt, len(hist)))
			tr.End()
			if ci == 0 {
				h := hist
				if len(h) > 5 {
					h = h[:5]
				}
				rep.Sample(map[string]interface{}{"measurement": name, "cfg": cfg.ints(), "first_ops": h})
			}
		}
	}
	// sample window: summary exact and independent of the order of the samples
	nW := Scale(300, 5000)
	for ci := 0; ci < nW; ci++ {
		r := root.Fork()
		type ws struct {
			drop     bool
			rtt, inf int64
		}
		var ss []ws
		n := 1 + r.Intn(12)
		for i := 0; i < n; i++ {
			ss = append(ss, ws{r.Bool(25), r.Pick(0, 1, 5, r.Range(1, 1e9), r.Range(1, 1e6)), r.Range(0, 300)})
		}
		run := func(order []int, emit bool) []int64 {
			w := measurements.NewDefaultImmutableSampleWindow()
			if emit {
				tr.Case(18, 7)
			}
			var last []int64
			// immutability: every window value handed out earlier keeps what it summarised (callers retain them as snapshots)
			type snap struct {
				w   *measurements.ImmutableSampleWindow
				obs string
			}
			look := func(w *measurements.ImmutableSampleWindow) string {
				return fmt.Sprint(w.StartTimeNanoseconds(), w.CandidateRTTNanoseconds(), w.AverageRTTNanoseconds(), w.MaxInFlight(), w.SampleCount(), w.DidDrop())
			}
			snaps := []snap{{w, look(w)}}
			for k, i := range order {
				s := ss[i]
				if s.drop {
					w = w.AddDroppedSample(int64(1000+k), int(s.inf))
				} else {
					w = w.AddSample(int64(1000+k), s.rtt, int(s.inf))
				}
				for _, sn := range snaps {
					if now := look(sn.w); now != sn.obs {
						rep.Violate("window:mutated-in-place", fmt.Sprintf("a window that summarised %s reads %s after a later Add on it", sn.obs, now),
							map[string]interface{}{"component": "window", "samples": fmt.Sprint(ss), "order": order})
					}
				}
				snaps = append(snaps, snap{w, look(w)})
				last = []int64{w.CandidateRTTNanoseconds(), w.AverageRTTNanoseconds(), int64(w.MaxInFlight()), int64(w.SampleCount()), B(w.DidDrop())}
				if emit {
					if s.drop {
						tr.Op(6, []int64{s.inf}, last)
					} else {
						tr.Op(5, []int64{s.rtt, s.inf}, last)
					}
				}
			}
			if emit {
				tr.End()
			}
			return last
		}
		id := make([]int, n)
		for i := range id {
			id[i] = i
		}
		a := run(id, true)
		perm := append([]int{}, id...)
		for i := n - 1; i > 0; i-- {
			j := r.Intn(i + 1)
			perm[i], perm[j] = perm[j], perm[i]
		}
		b := run(perm, false)
		rep.Evaluations++
		// exact summary
		mn, mx, cnt, sum, drop := int64(math.MaxInt64), int64(0), int64(0), int64(0), false
		for _, s := range ss {
			if s.inf > mx {
				mx = s.inf
			}
			if s.drop {
				drop = true
			} else {
				cnt++
				sum += s.rtt
				if s.rtt < mn {
					mn = s.rtt
				}
			}
		}
		avg := int64(0)
		if cnt > 0 {
			avg = sum / cnt
		}
		want := []int64{mn, avg, mx, cnt, B(drop)}
		rp := map[string]interface{}{"component": "window", "samples": fmt.Sprint(ss), "perm": perm}
		if fmt.Sprint(a) != fmt.Sprint(want) {
			rep.Violate("window:summary", fmt.Sprintf("window summarises %v as %v, expected %v", ss, a, want), rp)
		}
		if fmt.Sprint(a) != fmt.Sprint(b) {
			rep.Violate("window:order-dependent", fmt.Sprintf("same samples in another order give %v instead of %v", b, a), rp)
		}
		key := make([]string, 0, n)
		for _, s := range ss {
			key = append(key, fmt.Sprint(s))
		}
		sort.Strings(key)
		rep.Distinct("window", fmt.Sprint(key))
	}
}

// ---------------- C18 under interleaving: Update is a read-modify-write; an Add that arrives while the operation runs is ordered
// before or after it, never lost or half-applied.  Real time (the Add waits on the instance's mutex while the operation is parked). ----------------
func TestC18Interleaved(t *testing.T) {
	rep := NewReport("C18interleaved")
	defer rep.Write(t)
	root := NewRng(Seed())
	n := Scale(12, 120)
	for kind := 1; kind <= 6; kind++ {
		for ci := 0; ci < n; ci++ {
			r := root.Fork()
			cfg := genMeasCfg(r, kind)
			base := float64(r.Pick(10, 1000, 1_000_000))
			var warm []float64
			for i := r.Intn(6); i > 0; i-- {
				warm = append(warm, genSample(r, base))
			}
			x := genSample(r, base)
			factor := []float64{0.5, 2, 0.9}[r.Intn(3)]
			mk := func() core.MeasurementInterface {
				m := newMeas(cfg)
				if m == nil {
					return nil
				}
				for _, w := range warm {
					m.Add(w)
				}
				return m
			}
			m, ua, au := mk(), mk(), mk()
			if m == nil {
				continue
			}
			op := func(v float64) float64 { return v * factor }
			ua.Update(op)
			ua.Add(x) // order 1: Update, then Add
			au.Add(x)
			au.Update(op) // order 2: Add, then Update
			started, release, done := make(chan struct{}), make(chan struct{}), make(chan struct{}, 2)
			go func() {
				m.Update(func(v float64) float64 { close(started); <-release; return v * factor })
				done <- struct{}{}
			}()
			<-started
			go func() { m.Add(x); done <- struct{}{} }()
			time.Sleep(3 * time.Millisecond) // the Add has reached the instance (it waits if Update holds the lock)
			close(release)
			<-done
			<-done
			got := m.Get()
			rep.Evaluations++
			rep.Distinct("update-add-interleaving", fmt.Sprint(kind, cfg.ints(), len(warm)))
			if math.Float64bits(got) != math.Float64bits(ua.Get()) && math.Float64bits(got) != math.Float64bits(au.Get()) {
				rep.Violate(measNames[kind]+":update-not-atomic", fmt.Sprintf("Update(x%v) overlapped by Add(%v) after warm-up %v left %v; Update-then-Add gives %v, Add-then-Update gives %v", factor, x, warm, got, ua.Get(), au.Get()),
					map[string]interface{}{"component": "measurement", "cfg": cfg.ints(), "warmup": fmt.Sprint(warm), "add": x, "factor": factor})
			}
		}
	}
}
