module veriftools

go 1.23.0

require github.com/platinummonkey/go-concurrency-limits v0.0.0

replace github.com/platinummonkey/go-concurrency-limits => /repo
