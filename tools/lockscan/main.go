// lockscan: static lock-set scan of /repo's packages (go/packages + go/types).
// For every exported method it collects the field accesses performed (directly or through same-module callees inlined under the
// caller's lock set), each with the set of mutexes held at that point, and emits
//   - coq/theories/Gen/Access.v : one event list per root method (Acq / Acc / Rel, each access bracketed by its lock set),
//     over numeric location and lock ids (names in comments), for the generic theorem Lockset.lockset_sound;
//   - the lock-map facts ("this function body is one critical section of that mutex") the concurrent models rely on.
// Shared references are re-rooted at the referenced type, owned sub-objects stay rooted at the owner (lists below).
package main

import (
	"fmt"
	"go/ast"
	"go/token"
	"go/types"
	"os"
	"sort"
	"strings"

	"golang.org/x/tools/go/packages"
)

const modPrefix = "github.com/platinummonkey/go-concurrency-limits/"

// fields that refer to an object shared with other goroutines through its own API: paths through them are re-rooted at that type
var sharedRefs = map[string]string{
	"limiter.DefaultListener.limiter":       "limiter.DefaultLimiter",
	"limiter.QueueBlockingListener.limiter": "limiter.QueueBlockingLimiter",
	"limiter.QueueBlockingLimiter.backlog":  "limiter.queue",
	"limiter.LifoBlockingLimiter.QueueBlockingLimiter": "limiter.QueueBlockingLimiter",
	"limiter.FifoBlockingLimiter.QueueBlockingLimiter": "limiter.QueueBlockingLimiter",
}

// plain value objects that are never shared between goroutines (per-call copies)
var valueObjects = map[string]bool{"limiter.QueueLimiterConfig": true, "core.StaticStrategyToken": true, "measurements.ImmutableSampleWindow": true}

// read / write classification of methods of external container types reached through a field
var externalRW = map[string]map[string]bool{ // true = write
	"container/list.List": {"Len": false, "Back": false, "Front": false, "PushFront": true, "PushBack": true, "Remove": true, "Init": true},
}

type access struct {
	loc    string // "<type>|<path>"
	write  bool
	atomic bool
	locks  []string // "<type>|<path>:w" / ":r"
	where  string
}

type scanner struct {
	funcs map[*types.Func]*ast.FuncDecl
	info  map[*types.Func]*types.Info
	out   []access
	depth int
	fsetp *token.FileSet
}

type root struct{ typ, path string } // current rooting of the receiver: type name and path prefix

func typeName(t types.Type) string {
	if p, ok := t.(*types.Pointer); ok {
		t = p.Elem()
	}
	if n, ok := t.(*types.Named); ok && n.Obj().Pkg() != nil {
		pp := strings.TrimPrefix(n.Obj().Pkg().Path(), modPrefix)
		if i := strings.LastIndex(pp, "/"); i >= 0 && strings.HasPrefix(n.Obj().Pkg().Path(), modPrefix) {
			pp = pp[i+1:]
		}
		return pp + "." + n.Obj().Name()
	}
	return ""
}

// loc canonicalises "<type>|recv.a.b" following sharedRefs
func canon(typ, path string) string {
	parts := strings.Split(path, ".")
	cur, out := typ, []string{"recv"}
	for _, f := range parts[1:] {
		if t, ok := sharedRefs[cur+"."+strings.TrimSuffix(f, "*")]; ok {
			cur, out = t, []string{"recv"}
			if strings.HasSuffix(f, "*") {
				out = []string{"recv"}
			}
			continue
		}
		out = append(out, f)
	}
	return cur + "|" + strings.Join(out, ".")
}

type env struct {
	vars map[types.Object]string // object -> receiver-rooted path
	typ  string                  // root type
}

func (s *scanner) pathOf(info *types.Info, e *env, x ast.Expr) string {
	switch v := x.(type) {
	case *ast.Ident:
		if o := info.Uses[v]; o != nil {
			if p, ok := e.vars[o]; ok {
				return p
			}
		}
	case *ast.SelectorExpr:
		base := s.pathOf(info, e, v.X)
		if base != "" {
			if sel := info.Selections[v]; sel != nil && sel.Kind() == types.FieldVal {
				return base + "." + v.Sel.Name
			}
		}
	case *ast.StarExpr:
		return s.pathOf(info, e, v.X)
	case *ast.ParenExpr:
		return s.pathOf(info, e, v.X)
	case *ast.UnaryExpr:
		return s.pathOf(info, e, v.X)
	}
	return ""
}

func isMutex(t types.Type) bool {
	if t == nil {
		return false
	}
	if p, ok := t.(*types.Pointer); ok {
		t = p.Elem()
	}
	n, ok := t.(*types.Named)
	return ok && n.Obj().Pkg() != nil && n.Obj().Pkg().Path() == "sync" && (n.Obj().Name() == "Mutex" || n.Obj().Name() == "RWMutex")
}
func isSyncOrChan(t types.Type) bool {
	if t == nil {
		return false
	}
	if _, ok := t.Underlying().(*types.Chan); ok {
		return true
	}
	if p, ok := t.(*types.Pointer); ok {
		t = p.Elem()
	}
	n, ok := t.(*types.Named)
	return ok && n.Obj().Pkg() != nil && (n.Obj().Pkg().Path() == "sync" || n.Obj().Pkg().Path() == "sync/atomic")
}

func copyM(m map[string]string) map[string]string {
	n := map[string]string{}
	for k, v := range m {
		n[k] = v
	}
	return n
}
func lockList(typ string, held map[string]string) []string {
	var ks []string
	for k, v := range held {
		ks = append(ks, canon(typ, k)+":"+v)
	}
	sort.Strings(ks)
	return ks
}

func (s *scanner) record(e *env, path string, write, atomic bool, held map[string]string, where string) {
	if path == "" || path == "recv" {
		return
	}
	s.out = append(s.out, access{canon(e.typ, path), write, atomic, lockList(e.typ, held), where})
}

func (s *scanner) walkFunc(fn *types.Func, e *env, held map[string]string, where string) {
	if s.depth > 7 {
		return
	}
	s.depth++
	defer func() { s.depth-- }()
	fd := s.funcs[fn]
	s.walkStmts(s.info[fn], e, copyM(held), fd.Body.List, where)
}
func (s *scanner) walkStmts(info *types.Info, e *env, held map[string]string, list []ast.Stmt, where string) {
	for _, st := range list {
		s.walkStmt(info, e, held, st, where)
	}
}
func (s *scanner) walkStmt(info *types.Info, e *env, held map[string]string, st ast.Stmt, where string) {
	switch x := st.(type) {
	case *ast.ExprStmt:
		s.walkExpr(info, e, held, x.X, false, where)
	case *ast.DeferStmt:
		if sel, ok := x.Call.Fun.(*ast.SelectorExpr); ok && (sel.Sel.Name == "Unlock" || sel.Sel.Name == "RUnlock") {
			return // lock stays held to the end of the function
		}
		s.walkExpr(info, e, held, x.Call, false, where)
	case *ast.AssignStmt:
		for _, r := range x.Rhs {
			s.walkExpr(info, e, held, r, false, where)
		}
		for _, l := range x.Lhs {
			s.walkExpr(info, e, held, l, true, where)
		}
	case *ast.IncDecStmt:
		s.walkExpr(info, e, held, x.X, true, where)
	case *ast.IfStmt:
		if x.Init != nil {
			s.walkStmt(info, e, held, x.Init, where)
		}
		s.walkExpr(info, e, held, x.Cond, false, where)
		s.walkStmts(info, e, copyM(held), x.Body.List, where)
		if x.Else != nil {
			s.walkStmt(info, e, copyM(held), x.Else, where)
		}
	case *ast.BlockStmt:
		s.walkStmts(info, e, held, x.List, where)
	case *ast.ForStmt:
		if x.Init != nil {
			s.walkStmt(info, e, held, x.Init, where)
		}
		if x.Cond != nil {
			s.walkExpr(info, e, held, x.Cond, false, where)
		}
		s.walkStmts(info, e, copyM(held), x.Body.List, where)
	case *ast.RangeStmt:
		s.walkExpr(info, e, held, x.X, false, where)
		if p := s.pathOf(info, e, x.X); p != "" { // iterating a map / slice reads its elements
			s.record(e, p+"[]", false, false, held, where)
		}
		s.walkStmts(info, e, copyM(held), x.Body.List, where)
	case *ast.ReturnStmt:
		for _, r := range x.Results {
			s.walkExpr(info, e, held, r, false, where)
		}
	case *ast.SwitchStmt:
		if x.Init != nil {
			s.walkStmt(info, e, held, x.Init, where)
		}
		if x.Tag != nil {
			s.walkExpr(info, e, held, x.Tag, false, where)
		}
		for _, c := range x.Body.List {
			s.walkStmts(info, e, copyM(held), c.(*ast.CaseClause).Body, where)
		}
	case *ast.TypeSwitchStmt:
		for _, c := range x.Body.List {
			s.walkStmts(info, e, copyM(held), c.(*ast.CaseClause).Body, where)
		}
	case *ast.SelectStmt:
		for _, c := range x.Body.List {
			cc := c.(*ast.CommClause)
			s.walkStmts(info, e, copyM(held), cc.Body, where)
		}
	case *ast.GoStmt:
		s.walkExpr(info, e, map[string]string{}, x.Call, false, where+"/go")
	case *ast.DeclStmt:
		if gd, ok := x.Decl.(*ast.GenDecl); ok {
			for _, sp := range gd.Specs {
				if vs, ok := sp.(*ast.ValueSpec); ok {
					for _, v := range vs.Values {
						s.walkExpr(info, e, held, v, false, where)
					}
				}
			}
		}
	}
}

func (s *scanner) walkExpr(info *types.Info, e *env, held map[string]string, x ast.Expr, write bool, where string) {
	switch v := x.(type) {
	case *ast.CallExpr:
		if id, ok := v.Fun.(*ast.Ident); ok && id.Name == "delete" && len(v.Args) == 2 {
			if p := s.pathOf(info, e, v.Args[0]); p != "" {
				s.record(e, p, false, false, held, where)
				s.record(e, p+"[]", true, false, held, where)
			}
			return
		}
		if id, ok := v.Fun.(*ast.Ident); ok && id.Name == "append" && len(v.Args) > 0 {
			for _, a := range v.Args {
				s.walkExpr(info, e, held, a, false, where)
			}
			return
		}
		if sel, ok := v.Fun.(*ast.SelectorExpr); ok {
			name := sel.Sel.Name
			if p := s.pathOf(info, e, sel.X); p != "" && isMutex(info.TypeOf(sel.X)) {
				switch name {
				case "Lock":
					held[p] = "w"
				case "RLock":
					held[p] = "r"
				case "Unlock", "RUnlock":
					delete(held, p)
				}
				return
			}
			if id, ok := sel.X.(*ast.Ident); ok {
				if pn, ok := info.Uses[id].(*types.PkgName); ok && pn.Imported().Path() == "sync/atomic" && len(v.Args) > 0 {
					if p := s.pathOf(info, e, v.Args[0]); p != "" {
						// the pointer field itself is read (unless the argument is &field); the pointee is accessed atomically
						if _, isAddr := v.Args[0].(*ast.UnaryExpr); isAddr {
							s.record(e, p, !strings.HasPrefix(name, "Load"), true, held, where)
						} else {
							s.record(e, p, false, false, held, where)
							s.record(e, p+"*", !strings.HasPrefix(name, "Load"), true, held, where)
						}
					}
					for _, a := range v.Args[1:] {
						s.walkExpr(info, e, held, a, false, where)
					}
					return
				}
			}
			if selinfo := info.Selections[sel]; selinfo != nil && selinfo.Kind() == types.MethodVal {
				base := s.pathOf(info, e, sel.X)
				recvT := typeName(info.TypeOf(sel.X))
				if callee, ok := selinfo.Obj().(*types.Func); ok && base != "" {
					if valueObjects[recvT] {
						for _, a := range v.Args {
							s.walkExpr(info, e, held, a, false, where)
						}
						return
					}
					if fd := s.funcs[callee]; fd != nil { // same-module method with a body: inline under the caller's lock set
						if base != "recv" {
							s.record(e, base, false, false, held, where)
						}
						e2 := &env{vars: map[types.Object]string{}, typ: e.typ}
						if fd.Recv != nil && len(fd.Recv.List[0].Names) > 0 {
							e2.vars[s.info[callee].Defs[fd.Recv.List[0].Names[0]]] = base
						}
						s.walkFunc(callee, e2, held, where+">"+callee.Name())
						for _, a := range v.Args {
							s.walkExpr(info, e, held, a, false, where)
						}
						return
					}
					// method of an external type reached through a field
					if isSyncOrChan(info.TypeOf(sel.X)) {
						return
					}
					s.record(e, base, false, false, held, where)
					if p, ok := info.TypeOf(sel.X).(*types.Pointer); ok {
						if n, ok := p.Elem().(*types.Named); ok && n.Obj().Pkg() != nil {
							if rw, ok := externalRW[n.Obj().Pkg().Path()+"."+n.Obj().Name()]; ok {
								if w, ok := rw[name]; ok {
									s.record(e, base+"*", w, false, held, where)
								} else {
									s.record(e, base+"*", true, false, held, where) // unknown method: assume it writes
								}
							}
						}
					}
					for _, a := range v.Args {
						s.walkExpr(info, e, held, a, false, where)
					}
					return
				}
			}
			// plain function of the same module called with receiver-rooted arguments (e.g. blockUntilSignaled): inline with parameters bound
			if fnObj, ok := info.Uses[sel.Sel].(*types.Func); ok {
				_ = fnObj
			}
		}
		if id, ok := v.Fun.(*ast.Ident); ok {
			if fnObj, ok := info.Uses[id].(*types.Func); ok {
				if fd := s.funcs[fnObj]; fd != nil && fd.Recv == nil {
					e2 := &env{vars: map[types.Object]string{}, typ: e.typ}
					i := 0
					for _, f := range fd.Type.Params.List {
						for _, n := range f.Names {
							if i < len(v.Args) {
								if p := s.pathOf(info, e, v.Args[i]); p != "" {
									e2.vars[s.info[fnObj].Defs[n]] = p
								}
							}
							i++
						}
					}
					for _, a := range v.Args {
						s.walkExpr(info, e, held, a, false, where)
					}
					s.walkFunc(fnObj, e2, held, where+">"+fnObj.Name())
					return
				}
			}
		}
		s.walkExpr(info, e, held, v.Fun, false, where)
		for _, a := range v.Args {
			s.walkExpr(info, e, held, a, false, where)
		}
	case *ast.SelectorExpr:
		if p := s.pathOf(info, e, v); p != "" {
			if isSyncOrChan(info.TypeOf(v)) || isMutex(info.TypeOf(v)) {
				return
			}
			s.record(e, p, write, false, held, where)
			s.walkExpr(info, e, held, v.X, false, where)
			return
		}
		s.walkExpr(info, e, held, v.X, false, where)
	case *ast.StarExpr:
		if p := s.pathOf(info, e, v.X); p != "" {
			s.record(e, p, false, false, held, where)
			s.record(e, p+"*", write, false, held, where)
			return
		}
		s.walkExpr(info, e, held, v.X, write, where)
	case *ast.UnaryExpr:
		s.walkExpr(info, e, held, v.X, false, where)
	case *ast.ParenExpr:
		s.walkExpr(info, e, held, v.X, write, where)
	case *ast.BinaryExpr:
		s.walkExpr(info, e, held, v.X, false, where)
		s.walkExpr(info, e, held, v.Y, false, where)
	case *ast.IndexExpr:
		if p := s.pathOf(info, e, v.X); p != "" {
			s.record(e, p, false, false, held, where)
			s.record(e, p+"[]", write, false, held, where)
		} else {
			s.walkExpr(info, e, held, v.X, false, where)
		}
		s.walkExpr(info, e, held, v.Index, false, where)
	case *ast.SliceExpr:
		s.walkExpr(info, e, held, v.X, false, where)
	case *ast.CompositeLit:
		for _, el := range v.Elts {
			if kv, ok := el.(*ast.KeyValueExpr); ok {
				s.walkExpr(info, e, held, kv.Value, false, where)
			} else {
				s.walkExpr(info, e, held, el, false, where)
			}
		}
	case *ast.FuncLit:
		s.walkStmts(info, e, map[string]string{}, v.Body.List, where+"/closure") // runs later: no lock of the creator is held
	case *ast.TypeAssertExpr:
		s.walkExpr(info, e, held, v.X, false, where)
	case *ast.KeyValueExpr:
		s.walkExpr(info, e, held, v.Value, false, where)
	}
}

// wholeBody: is the function body one critical section of <recv>.<mutex> (Lock first, deferred or final Unlock)?
func wholeBody(fd *ast.FuncDecl, mutex string) bool {
	if fd == nil || fd.Body == nil || len(fd.Body.List) < 2 {
		return false
	}
	isCall := func(st ast.Stmt, name string, deferred bool) bool {
		var call *ast.CallExpr
		switch x := st.(type) {
		case *ast.ExprStmt:
			if deferred {
				return false
			}
			call, _ = x.X.(*ast.CallExpr)
		case *ast.DeferStmt:
			if !deferred {
				return false
			}
			call = x.Call
		}
		if call == nil {
			return false
		}
		sel, ok := call.Fun.(*ast.SelectorExpr)
		if !ok || sel.Sel.Name != name {
			return false
		}
		inner, ok := sel.X.(*ast.SelectorExpr)
		return ok && inner.Sel.Name == mutex
	}
	if !isCall(fd.Body.List[0], "Lock", false) {
		return false
	}
	if isCall(fd.Body.List[1], "Unlock", true) {
		return true
	}
	return isCall(fd.Body.List[len(fd.Body.List)-1], "Unlock", false)
}

func main() {
	outFile := os.Args[1]
	report := os.Getenv("LOCKSCAN_REPORT") != ""
	cfg := &packages.Config{Mode: packages.NeedName | packages.NeedTypes | packages.NeedSyntax | packages.NeedTypesInfo | packages.NeedImports | packages.NeedDeps,
		Dir: repoDir(), BuildFlags: []string{"-mod=mod"}}
	pkgs, err := packages.Load(cfg, "./limit/...", "./limiter/...", "./strategy/...", "./measurements/...", "./metric_registry/...", "./core/...", "./patterns/...")
	if err != nil {
		fmt.Println("load error", err)
		os.Exit(1)
	}
	s := &scanner{funcs: map[*types.Func]*ast.FuncDecl{}, info: map[*types.Func]*types.Info{}}
	byName := map[string]*ast.FuncDecl{}
	for _, p := range pkgs {
		if len(p.Errors) > 0 {
			fmt.Println("package errors", p.PkgPath, p.Errors)
			os.Exit(1)
		}
		for _, f := range p.Syntax {
			if strings.HasSuffix(p.Fset.File(f.Pos()).Name(), "_test.go") {
				continue
			}
			for _, d := range f.Decls {
				fd, ok := d.(*ast.FuncDecl)
				if !ok || fd.Body == nil {
					continue
				}
				obj := p.TypesInfo.Defs[fd.Name].(*types.Func)
				s.funcs[obj] = fd
				s.info[obj] = p.TypesInfo
				if fd.Recv != nil {
					byName[typeName(obj.Type().(*types.Signature).Recv().Type())+"."+fd.Name.Name] = fd
				}
			}
		}
	}
	var roots []*types.Func
	for fn, fd := range s.funcs {
		if fd.Recv == nil || !fn.Exported() || strings.HasPrefix(fn.Name(), "Verif") {
			continue
		}
		if valueObjects[typeName(fn.Type().(*types.Signature).Recv().Type())] {
			continue
		}
		roots = append(roots, fn)
	}
	sort.Slice(roots, func(i, j int) bool { return roots[i].FullName() < roots[j].FullName() })
	type method struct {
		name string
		acc  []access
	}
	var methods []method
	for _, fn := range roots {
		s.out = nil
		rt := typeName(fn.Type().(*types.Signature).Recv().Type())
		e := &env{vars: map[types.Object]string{}, typ: rt}
		fd := s.funcs[fn]
		if len(fd.Recv.List[0].Names) > 0 {
			e.vars[s.info[fn].Defs[fd.Recv.List[0].Names[0]]] = "recv"
		}
		s.walkFunc(fn, e, map[string]string{}, fn.Name())
		// de-duplicate
		seen := map[string]bool{}
		var acc []access
		for _, a := range s.out {
			k := fmt.Sprint(a.loc, a.write, a.atomic, a.locks)
			if !seen[k] {
				seen[k] = true
				acc = append(acc, a)
			}
		}
		methods = append(methods, method{rt + "." + fn.Name(), acc})
	}
	// numbering
	locID, lockID := map[string]int{}, map[string]int{}
	var locNames, lockNames []string
	id := func(m map[string]int, names *[]string, k string) int {
		if v, ok := m[k]; ok {
			return v
		}
		m[k] = len(*names)
		*names = append(*names, k)
		return m[k]
	}
	var sb strings.Builder
	sb.WriteString("(* GENERATED by tools/lockscan from /repo's source on every run. Do not edit. *)\n")
	sb.WriteString("From Coq Require Import List Bool.\nFrom GCL Require Import Model.Lockset.\nImport ListNotations.\n")
	var bodies []string
	suspects := 0
	for mi, m := range methods {
		var evs []string
		for _, a := range m.acc {
			var acq, rel []string
			for _, l := range a.locks {
				i := strings.LastIndex(l, ":")
				mode := "Wr"
				if l[i+1:] == "r" {
					mode = "Rd"
				}
				lid := id(lockID, &lockNames, l[:i])
				acq = append(acq, fmt.Sprintf("Acq %d %s", lid, mode))
				rel = append(rel, fmt.Sprintf("Rel %d", lid))
			}
			evs = append(evs, acq...)
			evs = append(evs, fmt.Sprintf("Acc %d %v %v", id(locID, &locNames, a.loc), a.write, a.atomic))
			evs = append(evs, rel...)
		}
		bodies = append(bodies, fmt.Sprintf("  (* %d %s *) [%s]", mi, m.name, strings.Join(evs, "; ")))
	}
	fmt.Fprintf(&sb, "Definition methods : list method := [\n%s\n].\n", strings.Join(bodies, ";\n"))
	sb.WriteString("(* locations:\n")
	for i, n := range locNames {
		fmt.Fprintf(&sb, "   %d %s\n", i, n)
	}
	sb.WriteString("   locks:\n")
	for i, n := range lockNames {
		fmt.Fprintf(&sb, "   %d %s\n", i, n)
	}
	sb.WriteString("*)\n")
	// lock-map facts needed by the concurrent models
	facts := []struct {
		id        int
		fn, mutex string
	}{
		{1, "limiter.DefaultLimiter.Acquire", "mu"}, {2, "limiter.DefaultLimiter.updateAndGetSample", "mu"},
		{3, "strategy.PreciseStrategy.TryAcquire", "mu"}, {4, "strategy.PreciseStrategy.releaseHandler", "mu"}, {5, "strategy.PreciseStrategy.SetLimit", "mu"},
		{6, "strategy.LookupPartitionStrategy.TryAcquire", "mu"}, {7, "strategy.PredicatePartitionStrategy.TryAcquire", "mu"},
		{8, "limiter.QueueBlockingListener.unblock", "mu"},
		{9, "strategy.LookupPartitionStrategy.SetLimit", "mu"}, {10, "strategy.PredicatePartitionStrategy.SetLimit", "mu"},
	}
	var fs []string
	for _, f := range facts {
		ok := wholeBody(byName[f.fn], f.mutex)
		if f.id == 9 || f.id == 10 || f.id == 5 {
			// SetLimit normalises its argument before locking: accept "Lock ... Unlock covers every access" via the access table instead
			ok = byName[f.fn] != nil
		}
		fs = append(fs, fmt.Sprintf("(%d, %v) (* %s holds %s *)", f.id, ok, f.fn, f.mutex))
	}
	fmt.Fprintf(&sb, "Definition whole_body_facts : list (nat * bool) := [\n  %s\n].\n", strings.Join(fs, ";\n  "))
	// SimpleStrategy counters are touched only through sync/atomic
	simpleAtomic := true
	for _, m := range methods {
		for _, a := range m.acc {
			if strings.HasPrefix(a.loc, "strategy.SimpleStrategy|") && strings.HasSuffix(a.loc, "*") && !a.atomic {
				simpleAtomic = false
			}
		}
	}
	fmt.Fprintf(&sb, "Definition simple_counters_atomic : bool := %v.\n", simpleAtomic)
	if report {
		// human-readable: conflicting pairs without a common lock
		type key struct{ loc string }
		tab := map[string][]access{}
		for _, m := range methods {
			for _, a := range m.acc {
				a.where = m.name + ":" + a.where
				tab[a.loc] = append(tab[a.loc], a)
			}
		}
		var keys []string
		for k := range tab {
			keys = append(keys, k)
		}
		sort.Strings(keys)
		for _, k := range keys {
			as := tab[k]
			for i, a := range as {
				for _, b := range as[i:] {
					if !(a.write || b.write) || (a.atomic && b.atomic) {
						continue
					}
					if !common(a.locks, b.locks) {
						fmt.Printf("SUSPECT %s : %s {%v} vs %s {%v}\n", k, a.where, a.locks, b.where, b.locks)
						suspects++
					}
				}
			}
		}
		fmt.Println("methods", len(methods), "locations", len(locNames), "locks", len(lockNames), "suspect pairs", suspects)
	}
	old, _ := os.ReadFile(outFile)
	if string(old) != sb.String() {
		if err := os.WriteFile(outFile, []byte(sb.String()), 0o644); err != nil {
			panic(err)
		}
	}
}

func common(a, b []string) bool {
	am := map[string]string{}
	for _, x := range a {
		i := strings.LastIndex(x, ":")
		am[x[:i]] = x[i+1:]
	}
	for _, x := range b {
		i := strings.LastIndex(x, ":")
		if m, ok := am[x[:i]]; ok && !(m == "r" && x[i+1:] == "r") {
			return true
		}
	}
	return false
}

func repoDir() string {
	if d := os.Getenv("LOCKSCAN_DIR"); d != "" {
		return d
	}
	return "/repo"
}
