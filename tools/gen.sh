#!/bin/sh
# Regenerates coq/theories/Gen/*.v from /repo's current source. Files are rewritten only when their content changes.
set -e
cd /verif/tools
export GOFLAGS=-mod=mod GOPROXY=off GOSUMDB=off GOTOOLCHAIN=local
cp /repo/go.sum go.sum
go1.26.8 run -tags verif ./tablegen /verif/coq/theories/Gen/Tables.v
# lock-set scan (default go: golang.org/x/tools v0.29.0 from the module cache)
go run ./lockscan /verif/coq/theories/Gen/Access.v
